//go:build hnum

package main

// C10: exact decimal arithmetic. Plumbing: run NewNumber/Cmp/String/LengthOfFractionalPart (overlay hook
// package verifhooks) and Validate on numerals chosen by TLC or at random; TLC decides (TraceNum, NumProduct cases).

import (
	"encoding/json"
	"flag"
	"fmt"
	"os"
	"sort"
	"strings"
	"sync/atomic"

	jdoc "github.com/jsightapi/jsight-schema-go-library/formats/json"
	"github.com/jsightapi/jsight-schema-go-library/notations/jschema"
	"github.com/jsightapi/jsight-schema-go-library/verifhooks"
)

type nfT struct {
	Neg bool  `json:"neg"`
	D   []int `json:"d"`
	S   int   `json:"s"`
}

// nfOfString abstracts Number.String() ("-12.034") to the normal form (sign, digits, scale). Pure re-notation.
func nfOfString(s string) nfT {
	neg := strings.HasPrefix(s, "-")
	s = strings.TrimPrefix(s, "-")
	ip, fp := s, ""
	if i := strings.IndexByte(s, '.'); i >= 0 {
		ip, fp = s[:i], s[i+1:]
	}
	digits := ip + fp
	scale := len(fp)
	for len(digits) > 0 && digits[len(digits)-1] == '0' {
		digits = digits[:len(digits)-1]
		scale--
	}
	digits = strings.TrimLeft(digits, "0")
	if digits == "" {
		return nfT{false, []int{}, 0}
	}
	d := make([]int, len(digits))
	for i := range digits {
		d[i] = int(digits[i] - '0')
	}
	return nfT{neg, d, scale}
}

func sameNF(a, b nfT) bool {
	if a.Neg != b.Neg || a.S != b.S || len(a.D) != len(b.D) {
		return false
	}
	for i := range a.D {
		if a.D[i] != b.D[i] {
			return false
		}
	}
	return true
}

func validateNum(schema string, doc string) Outcome {
	return guard(func() error {
		return jschema.New("schema", schema).Validate(jdoc.New("doc", doc))
	})
}

type c10Case struct {
	Num      []int  `json:"num"`
	NF       nfT    `json:"nf"`
	FracLen  int    `json:"fraclen"`
	IntClass string `json:"intclass"`
	PredOK   bool   `json:"pred_ok"`
}

type c10Mismatch struct {
	Num    string `json:"num"`
	What   string `json:"what"`
	Want   string `json:"want"`
	Got    string `json:"got"`
	PredOK bool   `json:"pred_ok"`
}

var floatEdges = []string{"-1e-400", "1e-400", "-5e-325", "5e-324", "4.9e-324", "1e-323", "-1e-323", "-0.1e-399", "0.1e-399", "1e400", "-1e400", "1e308",
	"1.8e308", "-1.8e308", "1.7976931348623157e308", "1.7976931348623159e308", "9007199254740993", "9007199254740992.5", "-9007199254740993",
	"9007199254740991.9", "0.1000000000000000055511151231257827", "0.30000000000000004", "0.29999999999999999", "2.2250738585072014e-308", "1e-320", "1.0000000000000001e-320"}

func init() {
	register("c10replay", func(args []string) int {
		fs := flag.NewFlagSet("c10replay", flag.ExitOnError)
		in := fs.String("cases", "-", "cases")
		out := fs.String("out", "-", "mismatches")
		chain := fs.String("chain", "", "write chain links (trace for TraceNum) here")
		allPairs := fs.Int("pairs", 0, "check all pairs of the numerals of at most this many characters against the chain")
		sample := fs.Int("samplepairs", 0, "sampled pairs over all numerals")
		fs.Parse(args)
		var cases []c10Case
		readLines(openIn(*in), func(line []byte) {
			var c c10Case
			if err := json.Unmarshal(line, &c); err != nil {
				fatal(err)
			}
			cases = append(cases, c)
		})
		w := newNDWriter(*out)
		defer w.Close()
		var mism int64
		type parsed struct {
			s string
			n *verifhooks.Number
		}
		nums := make([]parsed, len(cases))
		parallelFor(len(cases), func(i int) {
			c := cases[i]
			s := string(intsToBytes(c.Num))
			n, err := verifhooks.NewNumber(s)
			if err != nil {
				atomic.AddInt64(&mism, 1)
				w.Write(c10Mismatch{s, "NewNumber", "ok", "error: " + err.Error(), c.PredOK})
				// API half for the same numeral: must still validate as a number
				return
			}
			nums[i] = parsed{s, n}
			if got := nfOfString(n.String()); !sameNF(got, c.NF) {
				atomic.AddInt64(&mism, 1)
				w.Write(c10Mismatch{s, "value", fmt.Sprint(c.NF), n.String(), c.PredOK})
			}
			if int(n.LengthOfFractionalPart()) != c.FracLen {
				atomic.AddInt64(&mism, 1)
				w.Write(c10Mismatch{s, "fraclen", fmt.Sprint(c.FracLen), fmt.Sprint(n.LengthOfFractionalPart()), c.PredOK})
			}
		})
		// chain: sort with the implementation's own comparison
		var ok []parsed
		for _, p := range nums {
			if p.n != nil {
				ok = append(ok, p)
			}
		}
		sort.SliceStable(ok, func(i, j int) bool { return ok[i].n.Cmp(ok[j].n) < 0 })
		links := 0
		if *chain != "" {
			cw := newNDWriter(*chain)
			for i := 0; i+1 < len(ok); i++ {
				rel := "="
				switch ok[i].n.Cmp(ok[i+1].n) {
				case -1:
					rel = "<"
				case 1:
					rel = ">"
				}
				cw.Write(map[string]interface{}{"op": "link", "a": bytesToInts([]byte(ok[i].s)), "b": bytesToInts([]byte(ok[i+1].s)), "rel": rel})
				links++
			}
			cw.Close()
		}
		// rank = number of "<" links before position i; every pair must answer according to ranks
		rank := make([]int, len(ok))
		for i := 1; i < len(ok); i++ {
			rank[i] = rank[i-1]
			if ok[i-1].n.Cmp(ok[i].n) != 0 {
				rank[i]++
			}
		}
		var pairs int64
		checkPair := func(i, j int) {
			want := 0
			if rank[i] < rank[j] {
				want = -1
			} else if rank[i] > rank[j] {
				want = 1
			}
			if got := ok[i].n.Cmp(ok[j].n); got != want {
				if atomic.AddInt64(&mism, 1) < 200 {
					w.Write(c10Mismatch{ok[i].s + " ? " + ok[j].s, "cmp-vs-chain", fmt.Sprint(want), fmt.Sprint(got), true})
				}
			}
		}
		if *allPairs > 0 {
			var idx []int
			for i, p := range ok {
				if len(p.s) <= *allPairs {
					idx = append(idx, i)
				}
			}
			parallelFor(len(idx), func(a int) {
				for b := range idx {
					checkPair(idx[a], idx[b])
				}
				atomic.AddInt64(&pairs, int64(len(idx)))
			})
		}
		if *sample > 0 && len(ok) > 0 {
			r := newRand(10)
			for k := 0; k < *sample; k++ {
				checkPair(r.Intn(len(ok)), r.Intn(len(ok)))
			}
			pairs += int64(*sample)
		}
		b, _ := json.Marshal(map[string]interface{}{"numerals": len(cases), "parsed": len(ok), "links": links, "pairs": pairs, "mismatches": mism})
		fmt.Fprintln(os.Stderr, "@@SUMMARY "+string(b))
		return 0
	})

	// c10trace: random long numerals through the hook and short/long numerals through the public API
	register("c10trace", func(args []string) int {
		fs := flag.NewFlagSet("c10trace", flag.ExitOnError)
		n := fs.Int("n", 200, "random pairs")
		in := fs.String("cases", "", "numerals from TLC (for the API half)")
		napi := fs.Int("api", 300, "API probes")
		out := fs.String("out", "-", "trace")
		fs.Parse(args)
		w := newNDWriter(*out)
		defer w.Close()
		r := newRand(10)
		g := &jsonGen{r: r, exp: true}
		big := func() string {
			var sb strings.Builder
			if r.Intn(3) == 0 {
				sb.WriteByte('-')
			}
			switch r.Intn(5) {
			case 0:
				sb.WriteByte('0')
			default:
				sb.WriteString(g.digits(1+r.Intn(60), true))
			}
			if r.Intn(2) == 0 {
				sb.WriteByte('.')
				sb.WriteString(g.digits(1+r.Intn(60), false))
			}
			if r.Intn(2) == 0 {
				sb.WriteByte("eE"[r.Intn(2)])
				sb.WriteString([]string{"", "+", "-"}[r.Intn(3)])
				sb.WriteString(fmt.Sprint(r.Intn(401)))
			}
			return sb.String()
		}
		// near-equal variants of one numeral: shifted point / padded zeros / perturbed last digit
		variant := func(s string) string {
			switch r.Intn(4) {
			case 0:
				return s
			case 1:
				if !strings.ContainsAny(s, ".eE") {
					return s + ".000"
				}
				return s
			case 2:
				if !strings.ContainsAny(s, "eE") {
					return s + "e0"
				}
				return s
			default:
				b := []byte(s)
				for i := len(b) - 1; i >= 0; i-- {
					if b[i] >= '0' && b[i] <= '9' && !strings.ContainsAny(s[i:], "eE") {
						b[i] = byte('0' + (int(b[i]-'0')+1)%10)
						break
					}
				}
				return string(b)
			}
		}
		for i := 0; i < *n; i++ {
			a := big()
			b := big()
			if r.Intn(2) == 0 {
				b = variant(a)
			}
			if strings.HasPrefix(strings.TrimPrefix(a, "-"), "0e") || strings.HasPrefix(strings.TrimPrefix(a, "-"), "0E") ||
				strings.HasPrefix(strings.TrimPrefix(b, "-"), "0e") || strings.HasPrefix(strings.TrimPrefix(b, "-"), "0E") {
				continue // zero mantissa with exponent: covered (and recorded) by the exhaustive tier
			}
			na, ea := verifhooks.NewNumber(a)
			nb, eb := verifhooks.NewNumber(b)
			if ea != nil || eb != nil {
				w.Write(map[string]interface{}{"op": "cmp", "a": bytesToInts([]byte(a)), "b": bytesToInts([]byte(b)), "got": 99})
				continue
			}
			w.Write(map[string]interface{}{"op": "cmp", "a": bytesToInts([]byte(a)), "b": bytesToInts([]byte(b)), "got": na.Cmp(nb)})
			w.Write(map[string]interface{}{"op": "frac", "a": bytesToInts([]byte(a)), "got": int(na.LengthOfFractionalPart())})
		}
		// API half
		var pool []string
		if *in != "" {
			readLines(openIn(*in), func(line []byte) {
				var c c10Case
				if json.Unmarshal(line, &c) == nil {
					pool = append(pool, string(intsToBytes(c.Num)))
				}
			})
		}
		bounds := []string{"-1", "0", "0.5", "1", "1.5", "10", "-0.05", "15", "0.1", "9.9", "100", "-15", "1.05", "0", "0", "0.3", "0.00000000000000000000000000000000000000000001", "-0.00000000000000000000000000000000000000000001"}
		rules := []string{"min", "max", "exclusiveMinimum", "exclusiveMaximum"}
		// equality of numbers (const, enum): other spellings of the same value, and neighbours
		respell := func(x string) []string {
			out := []string{x}
			hasDot, hasExp := strings.Contains(x, "."), strings.ContainsAny(x, "eE")
			if !hasExp {
				out = append(out, x+"e0", x+"E+0", x+"e-0")
				if hasDot {
					out = append(out, x+"0", x+"00e0")
					i := strings.Index(x, ".")
					neg := strings.HasPrefix(x, "-")
					m := strings.TrimLeft(strings.TrimPrefix(x[:i], "-")+x[i+1:], "0")
					if m == "" {
						m = "0"
					}
					if neg {
						m = "-" + m
					}
					out = append(out, m+"e-"+fmt.Sprint(len(x)-i-1))
				} else if x != "0" && x != "-0" {
					out = append(out, x+"0e-1", x+".0", x+"00e-2")
				}
			}
			return out
		}
		for _, x := range []string{"1.5", "2", "0.5", "10", "100", "-3", "0.25", "-0.5", "12.75", "7", "0", "-0", "0.0", "1.0", "1.50"} {
			t := strings.TrimPrefix(x, "-")
			others := append(respell(x), "1.51", "3", "-"+t, t, "20", "1.5e1")
			for _, a := range others {
				ta := strings.TrimPrefix(a, "-")
				if strings.HasPrefix(ta, "0e") || strings.HasPrefix(ta, "0E") || strings.HasPrefix(t, "0e") {
					continue
				}
				for _, form := range []string{"const", "enum"} {
					schema := fmt.Sprintf("%s // {const: true}", x)
					if form == "enum" {
						schema = fmt.Sprintf("%s // {enum: [7777, %s]}", x, x)
					}
					o := validateNum(schema, a)
					w.Write(map[string]interface{}{"op": "eq", "form": form, "x": bytesToInts([]byte(x)), "a": bytesToInts([]byte(a)), "ok": o.OK, "code": o.Code, "kind": o.Kind, "schema": schema})
				}
			}
		}
		// every float edge against every rule and the bounds next to it
		for _, a := range floatEdges {
			for ri, rule := range rules {
				for _, bound := range []string{"0", "0.3", "0.1", "0.00000000000000000000000000000000000000000001", "-0.00000000000000000000000000000000000000000001", "-1", "1.5"} {
					ex := "1000000.5"
					if ri%2 == 1 {
						ex = "-1000000.5"
					}
					schema := fmt.Sprintf("%s // {%s: %s}", ex, []string{"min", "max"}[ri%2], bound)
					if ri >= 2 {
						schema = fmt.Sprintf("%s // {%s: %s, %s: true}", ex, []string{"min", "max"}[ri%2], bound, rule)
					}
					o := validateNum(schema, a)
					w.Write(map[string]interface{}{"op": "rule", "rule": rule, "bound": bytesToInts([]byte(bound)), "a": bytesToInts([]byte(a)), "ok": o.OK, "code": o.Code, "kind": o.Kind, "schema": schema})
				}
			}
		}
		for i := 0; i < *napi && len(pool) > 0; i++ {
			a := pool[r.Intn(len(pool))]
			if i%7 == 6 {
				a = big()
			}
			if i%7 == 5 { // values a binary float cannot tell from a neighbour, from zero or from infinity
				a = floatEdges[r.Intn(len(floatEdges))]
			}
			t := strings.TrimPrefix(a, "-")
			if strings.HasPrefix(t, "0e") || strings.HasPrefix(t, "0E") {
				continue
			}
			switch i % 6 {
			case 0, 1, 2, 3:
				rule := rules[i%4]
				bound := bounds[r.Intn(len(bounds))]
				var schema string
				switch rule {
				case "min":
					schema = fmt.Sprintf("1000000.5 // {min: %s}", bound)
				case "max":
					schema = fmt.Sprintf("-1000000.5 // {max: %s}", bound)
				case "exclusiveMinimum":
					schema = fmt.Sprintf("1000000.5 // {min: %s, exclusiveMinimum: true}", bound)
				default:
					schema = fmt.Sprintf("-1000000.5 // {max: %s, exclusiveMaximum: true}", bound)
				}
				o := validateNum(schema, a)
				w.Write(map[string]interface{}{"op": "rule", "rule": rule, "bound": bytesToInts([]byte(bound)), "a": bytesToInts([]byte(a)), "ok": o.OK, "code": o.Code, "kind": o.Kind, "schema": schema})
			case 4:
				p := 1 + r.Intn(3)
				schema := fmt.Sprintf("0.1 // {type: \"decimal\", precision: %d}", p)
				o := validateNum(schema, a)
				w.Write(map[string]interface{}{"op": "prec", "p": p, "a": bytesToInts([]byte(a)), "ok": o.OK, "code": o.Code, "kind": o.Kind, "schema": schema})
			case 5:
				o := validateNum("1", a)
				w.Write(map[string]interface{}{"op": "int", "a": bytesToInts([]byte(a)), "ok": o.OK, "code": o.Code, "kind": o.Kind, "schema": "1"})
				// the same question asked through additionalProperties: "integer" (another classifier in the code)
				sch := "{} // {additionalProperties: \"integer\"}"
				o = validateNum(sch, "{\"n\": "+a+"}")
				w.Write(map[string]interface{}{"op": "int", "a": bytesToInts([]byte(a)), "ok": o.OK, "code": o.Code, "kind": o.Kind, "schema": sch})
			}
		}
		return 0
	})

	register("c10one", func(args []string) int { // witness re-run: numerals on stdin, one per line
		w := newNDWriter("-")
		defer w.Close()
		readLines(os.Stdin, func(line []byte) {
			s := string(line)
			_, err := verifhooks.NewNumber(s)
			o := validateNum("1000000.5 // {min: -5}", s)
			w.Write(map[string]interface{}{"num": s, "newnumber_ok": err == nil, "validate_ok": o.OK, "code": o.Code, "msg": o.Msg})
		})
		return 0
	})
}
