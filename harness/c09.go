package main

// C09: type graphs. Expected verdict (accept / missing / reject / unspec), missing names and the root's used types come
// from TLC (TypeGraph.tla via GenGraph.tla). One result line per case is flushed immediately, so that a fatal crash
// (Go stack overflow) or a hang can be pinned to the case in flight by the driver, which restarts after it.

import (
	"encoding/json"
	"flag"
	"fmt"
	"os"
	"runtime/debug"
	"sort"
	"strings"
	"time"

	jdoc "github.com/jsightapi/jsight-schema-go-library/formats/json"
)

type c09Case struct {
	Schema  Node     `json:"schema"`
	Env     Env      `json:"env"`
	Want    string   `json:"want"`
	Opt     bool     `json:"opt"` // KeysAreOptionalByDefault on the root and on every type
	Missing []string `json:"missing"`
	Used    []string `json:"used"`
	PredStarRejects bool `json:"pred_star_rejects"`
	PredMeshRejects bool `json:"pred_mesh_rejects"`
	Pred1303        bool `json:"pred_1303"`
}

type c09Result struct {
	PredRejects bool `json:"pred_rejects"` // the implementation-shaped model's prediction for this protocol
	Pred1303    bool `json:"pred_1303"`
	I      int      `json:"i"`
	Mesh   bool     `json:"mesh"`
	Handed string   `json:"handed,omitempty"`
	Schema string   `json:"schema"`
	Types  []string `json:"types"`
	Want   string   `json:"want"`
	Check  Outcome  `json:"check"`
	Used   []string `json:"used"`
	Bad    string   `json:"bad,omitempty"`
}

func withTimeout(d time.Duration, f func()) bool {
	done := make(chan struct{})
	go func() { f(); close(done) }()
	select {
	case <-done:
		return true
	case <-time.After(d):
		return false
	}
}

func init() {
	register("c09replay", func(args []string) int {
		fs := flag.NewFlagSet("c09replay", flag.ExitOnError)
		casesPath := fs.String("cases", "", "cases ndjson")
		skip := fs.Int("skip", 0, "skip this many (case, protocol) runs")
		out := fs.String("out", "", "result ndjson (appended, flushed per case)")
		fs.Parse(args)
		debug.SetMaxStack(256 << 20)
		var cases []c09Case
		readLines(openIn(*casesPath), func(line []byte) {
			var c c09Case
			if err := json.Unmarshal(line, &c); err != nil {
				fatal(fmt.Sprintf("%v in %.300s", err, line))
			}
			cases = append(cases, c)
		})
		f, err := os.OpenFile(*out, os.O_APPEND|os.O_CREATE|os.O_WRONLY, 0o644)
		if err != nil {
			fatal(err)
		}
		defer f.Close()
		emit := func(r c09Result) {
			b, _ := json.Marshal(r)
			f.Write(append(b, '\n'))
		}
		run := 0
		for i, c := range cases {
			for _, mesh := range []bool{true, false} {
				run++
				if run <= *skip {
					continue
				}
				// marker first: if the process dies, the driver knows which run was in flight
				fmt.Fprintf(f, "{\"inflight\":%d}\n", run)
				res := c09Result{I: i, Mesh: mesh, Want: c.Want, PredRejects: c.PredStarRejects, Pred1303: c.Pred1303}
				if mesh {
					res.PredRejects = c.PredMeshRejects
				}
				ok := withTimeout(20*time.Second, func() {
					pipeSpelling = []string{" | ", "|", "  |  ", " |", "| "}[i%5] // the blanks around the bar of a type shortcut mean nothing
					if mesh && i%3 == 1 { // every third graph: the root is handed only the types its own text names (the types know each other)
						rootOnly = append([]string{}, c.Used...)
						res.Handed = "root"
					}
					if mesh && i%3 == 2 { // every third graph: every schema is handed only the types its own text names
						chainOnly = true
						res.Handed = "chain"
					}
					s, rr, err := buildSchema(c.Schema, c.Env, c.Opt, mesh)
					rootOnly, chainOnly = nil, false
					pipeSpelling = " | "
					res.Schema = rr.Text
					for _, t := range c.Env.Types {
						res.Types = append(res.Types, t.Name+" = "+strings.ReplaceAll(renderSchema(t.N).Text, "\n", " "))
					}
					if err != nil {
						res.Check = outcomeOf(err)
					} else {
						res.Check = guard(s.Check)
						if res.Check.OK && c.Want == "accept" {
							var ex []byte
							o := guard(func() error { var e error; ex, e = s.Example(); return e })
							if !o.OK {
								res.Bad = "Example failed: " + o.Msg + o.Panic
							} else if v := guard(func() error { return s.Validate(jdoc.New("d", ex)) }); v.Kind == "panic" {
								res.Bad = "Validate panicked: " + v.Panic
							}
							for _, d := range []string{"null", "{}", "[]", "1", `{"a":{"a":{"a":1}}}`, `[[[1]]]`, `{"r":{"a":{}}}`} {
								if v := guard(func() error { return s.Validate(jdoc.New("d", d)) }); v.Kind == "panic" {
									res.Bad = "Validate panicked on " + d + ": " + v.Panic
								}
							}
						}
						var used []string
						if o := guard(func() error { var e error; used, e = s.UsedUserTypes(); return e }); o.OK {
							res.Used = used
							seen := map[string]bool{}
							for _, u := range used {
								if seen[u] {
									res.Bad = "UsedUserTypes lists " + u + " twice"
								}
								seen[u] = true
							}
							a := append([]string{}, used...)
							b := append([]string{}, c.Used...)
							sort.Strings(a)
							sort.Strings(b)
							if strings.Join(a, ",") != strings.Join(b, ",") && res.Bad == "" {
								res.Bad = fmt.Sprintf("UsedUserTypes = %v, the root text references %v", a, b)
							}
						}
					}
				})
				if !ok {
					res.Bad = "no termination within 20 s"
					emit(res)
					return 3 // a goroutine is stuck: let the driver restart after this run
				}
				if res.Bad == "" {
					switch c.Want {
					case "accept":
						if !res.Check.OK {
							res.Bad = "Check rejects a graph every type of which has a finite inhabitant"
						}
					case "reject":
						if res.Check.OK {
							res.Bad = "Check accepts a root without finite inhabitant"
						}
					case "missing":
						named := false
						for _, m := range c.Missing {
							if strings.Contains(res.Check.Msg, m) {
								named = true
							}
						}
						if res.Check.OK {
							res.Bad = "Check accepts although a referenced type was not added"
						} else if !named {
							res.Bad = "Check fails without naming the missing type"
						}
					}
					if res.Check.Kind == "panic" { // a non-library error value is C07's business, the verdict counts here
						res.Bad = "Check panicked: " + res.Check.Panic
					}
				}
				emit(res)
			}
		}
		return 0
	})
}
