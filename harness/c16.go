package main

// C16: GetAST mirrors the schema text. The expected tree comes from TLC (Ast.tla, @@CASE lines); this file converts the
// real jschema.ASTNode into the same JSON shape and compares structurally.

import (
	"encoding/json"
	"flag"
	"fmt"
	"os"
	"sync/atomic"

	jlib "github.com/jsightapi/jsight-schema-go-library"
	"github.com/jsightapi/jsight-schema-go-library/notations/jschema"
)

// txt decodes the spec's tagged texts ({k:"s",s} | {k:"cp",c} | {k:"re",re} | {k:"join",parts}) or a plain string.
type txt string

func (t *txt) UnmarshalJSON(b []byte) error {
	if len(b) > 0 && b[0] == '"' {
		var s string
		err := json.Unmarshal(b, &s)
		*t = txt(s)
		return err
	}
	var r struct {
		K     string   `json:"k"`
		S     string   `json:"s"`
		C     []int    `json:"c"`
		Re    *RE      `json:"re"`
		Parts []string `json:"parts"`
	}
	if err := json.Unmarshal(b, &r); err != nil {
		return err
	}
	switch r.K {
	case "s":
		*t = txt(r.S)
	case "cp":
		rs := make([]rune, len(r.C))
		for i, c := range r.C {
			rs[i] = rune(c)
		}
		*t = txt(string(rs))
	case "re":
		*t = txt(r.Re.Pattern())
	case "join":
		out := ""
		for _, p := range r.Parts {
			out += p
		}
		*t = txt(out)
	default:
		return fmt.Errorf("bad text tag %q", r.K)
	}
	return nil
}

type astRule struct {
	N     string    `json:"n"`
	TT    string    `json:"tt"`
	V     txt       `json:"v"`
	Src   string    `json:"src"` // manual | generated | unknown
	Note  string    `json:"note"`
	Items []astRule `json:"items"`
	Props []astRule `json:"props"`
}

type astNode struct {
	TT       string    `json:"tt"`
	ST       string    `json:"st"`
	Key      txt       `json:"key"`
	Sc       bool      `json:"sc"`
	V        txt       `json:"v"`
	Note     string    `json:"note"`
	Rules    []astRule `json:"rules"`
	Children []astNode `json:"children"`
}

func srcName(s jlib.RuleASTNodeSource) string {
	switch s {
	case jlib.RuleASTNodeSourceManual:
		return "manual"
	case jlib.RuleASTNodeSourceGenerated:
		return "generated"
	}
	return "unknown"
}

func convRule(name string, r jlib.RuleASTNode) astRule {
	out := astRule{N: name, TT: r.TokenType, V: txt(r.Value), Src: srcName(r.Source), Note: r.Comment, Items: []astRule{}, Props: []astRule{}}
	for _, it := range r.Items {
		out.Items = append(out.Items, convRule("", it))
	}
	if r.Properties != nil {
		r.Properties.EachSafe(func(k string, v jlib.RuleASTNode) { out.Props = append(out.Props, convRule(k, v)) })
	}
	return out
}

func convAST(n jlib.ASTNode) astNode {
	out := astNode{TT: n.TokenType, ST: n.SchemaType, Key: txt(n.Key), Sc: n.IsKeyShortcut, V: txt(n.Value), Note: n.Comment, Rules: []astRule{}, Children: []astNode{}}
	if n.Rules != nil {
		n.Rules.EachSafe(func(k string, v jlib.RuleASTNode) { out.Rules = append(out.Rules, convRule(k, v)) })
	}
	for _, c := range n.Children {
		out.Children = append(out.Children, convAST(c))
	}
	return out
}

type c16Case struct {
	Schema Node    `json:"schema"`
	Env    Env     `json:"env"`
	AST    astNode `json:"ast"`
}

type c16Mismatch struct {
	Schema string      `json:"schema"`
	Want   astNode     `json:"want"`
	Got    interface{} `json:"got"`
	Where  string      `json:"where"`
}

func diffAST(path string, w, g astNode) string {
	if w.TT != g.TT || w.ST != g.ST || w.Key != g.Key || w.Sc != g.Sc || w.V != g.V || w.Note != g.Note {
		return fmt.Sprintf("%s: node fields want %v got %v", path, []interface{}{w.TT, w.ST, w.Key, w.Sc, w.V, w.Note}, []interface{}{g.TT, g.ST, g.Key, g.Sc, g.V, g.Note})
	}
	if !sameRules(w.Rules, g.Rules) {
		wj, _ := json.Marshal(w.Rules)
		gj, _ := json.Marshal(g.Rules)
		return fmt.Sprintf("%s: rules want %s got %s", path, wj, gj)
	}
	if len(w.Children) != len(g.Children) {
		return fmt.Sprintf("%s: %d children want %d", path, len(g.Children), len(w.Children))
	}
	for i := range w.Children {
		if d := diffAST(fmt.Sprintf("%s/%d", path, i), w.Children[i], g.Children[i]); d != "" {
			return d
		}
	}
	return ""
}

// sameRules: structural equality; the expected token kind "ref|str" admits either spelling of a quoted type name.
func sameRules(w, g []astRule) bool {
	if len(w) != len(g) {
		return false
	}
	for i := range w {
		a, b := w[i], g[i]
		ttOK := a.TT == b.TT || (a.TT == "ref|str" && (b.TT == "reference" || b.TT == "string"))
		if !ttOK || a.N != b.N || a.V != b.V || a.Src != b.Src || a.Note != b.Note || !sameRules(a.Items, b.Items) || !sameRules(a.Props, b.Props) {
			return false
		}
	}
	return true
}

var poisonN int64

func init() {
	register("c16replay", func(args []string) int {
		fs := flag.NewFlagSet("c16replay", flag.ExitOnError)
		casesPath := fs.String("cases", "", "cases ndjson")
		out := fs.String("out", "-", "mismatch ndjson")
		dump := fs.Bool("dump", false, "print real ASTs instead of comparing")
		fs.Parse(args)
		var cases []c16Case
		readLines(openIn(*casesPath), func(line []byte) {
			var c c16Case
			if err := json.Unmarshal(line, &c); err != nil {
				fatal(fmt.Sprintf("%v in %.300s", err, line))
			}
			cases = append(cases, c)
		})
		w := newNDWriter(*out)
		defer w.Close()
		var n, mism, rejected int64
		parallelFor(len(cases), func(i int) {
			c := cases[i]
			// the loaders are pooled: a load that failed half-way (a note between a key and a value that never came, an open annotation,
			// an open rule list) must leave nothing behind for the schema loaded next
			poison := []string{"{\n  \"a\": // a note left behind\n ]", "{\n  \"a\": 1 // {min: 0} - left behind\n  \"b\"", "1 /* {enum: [1, // left\n", "{\n \"k\": 1, // {or: [{min: 0"}
			_ = jschema.New("poison", poison[int(atomic.AddInt64(&poisonN, 1))%len(poison)]).Check()
			s, rr, err := buildSchema(c.Schema, c.Env, false, true)
			var ast jlib.ASTNode
			o := outcomeOf(err)
			if err == nil {
				o = guard(func() error {
					var e error
					ast, e = s.GetAST()
					return e
				})
			}
			if !o.OK {
				atomic.AddInt64(&rejected, 1)
				atomic.AddInt64(&mism, 1)
				w.Write(c16Mismatch{rr.Text, c.AST, o, "GetAST failed"})
				return
			}
			atomic.AddInt64(&n, 1)
			got := convAST(ast)
			if *dump {
				w.Write(map[string]interface{}{"schema": rr.Text, "ast": got})
				return
			}
			if d := diffAST("", c.AST, got); d != "" {
				atomic.AddInt64(&mism, 1)
				w.Write(c16Mismatch{rr.Text, c.AST, got, d})
			}
		})
		b, _ := json.Marshal(map[string]int64{"trees": n, "mismatches": mism, "rejected": rejected})
		fmt.Fprintln(os.Stderr, "@@SUMMARY "+string(b))
		return 0
	})
}
