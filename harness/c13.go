package main

// C13: meaning is invariant under surface syntax. Layout vectors and document spellings come from TLC (Surface.tla),
// the expected verdict vectors from the Gen* modules; this file renders every spelling and compares.

import (
	"encoding/json"
	"flag"
	"fmt"
	"os"
	"sort"
	"strings"
	"sync/atomic"

	jlib "github.com/jsightapi/jsight-schema-go-library"
	jdoc "github.com/jsightapi/jsight-schema-go-library/formats/json"
	"github.com/jsightapi/jsight-schema-go-library/notations/jschema"
)

type docSpell struct {
	WS    string `json:"ws"`
	Order string `json:"order"`
	Esc   string `json:"esc"`
}

func escCP(cp []int, mode string) string {
	var sb strings.Builder
	sb.WriteByte('"')
	for _, r := range cp {
		switch {
		case mode == "unicode" && r < 0x10000:
			sb.WriteString(fmt.Sprintf(`\u%04x`, r))
		case mode == "slash" && r == '/':
			sb.WriteString(`\/`)
		case r == '"':
			sb.WriteString(`\"`)
		case r == '\\':
			sb.WriteString(`\\`)
		case r == '\n':
			if mode == "slash" {
				sb.WriteString(`\u000a`)
			} else {
				sb.WriteString(`\n`)
			}
		case r == '\t':
			sb.WriteString(`\t`)
		case r == '\r':
			sb.WriteString(`\r`)
		case r < 0x20:
			sb.WriteString(fmt.Sprintf(`\u%04X`, r))
		default:
			sb.WriteRune(rune(r))
		}
	}
	sb.WriteByte('"')
	return sb.String()
}

func containsInt(a []int, x int) bool {
	for _, y := range a {
		if y == x {
			return true
		}
	}
	return false
}

func escapableCP(cp []int) bool {
	for _, r := range cp {
		if r == '/' || r == '"' || r == '\\' || r < 0x20 {
			return true
		}
	}
	return false
}

// hasEscapable: some string or key of the document has a character that JSON lets one spell as an escape
func hasEscapable(v Value) bool {
	switch v.T {
	case "str":
		return escapableCP(v.C)
	case "arr":
		for _, it := range v.Items {
			if hasEscapable(it) {
				return true
			}
		}
	case "obj":
		for _, p := range v.Ps {
			cp := []int{}
			for _, r := range string(p.K) {
				cp = append(cp, int(r))
			}
			if escapableCP(cp) || hasEscapable(p.V) {
				return true
			}
		}
	}
	return false
}

func hasDupKeys(v Value) bool {
	switch v.T {
	case "arr":
		for _, it := range v.Items {
			if hasDupKeys(it) {
				return true
			}
		}
	case "obj":
		seen := map[Key]bool{}
		for _, p := range v.Ps {
			if seen[p.K] || hasDupKeys(p.V) {
				return true
			}
			seen[p.K] = true
		}
	}
	return false
}

func spellDoc(v Value, sp docSpell) string {
	open, sep, colon, close := "", ",", ":", ""
	switch sp.WS {
	case "spaced":
		open, sep, colon, close = " ", " , ", " : ", " "
	case "lines":
		open, sep, colon, close = "\r\n\t", ",\n  ", ":\t", "\n"
	}
	var rec func(v Value) string
	rec = func(v Value) string {
		switch v.T {
		case "str":
			return escCP(v.C, sp.Esc)
		case "arr":
			if len(v.Items) == 0 {
				return "[" + close + "]"
			}
			parts := make([]string, len(v.Items))
			for i, it := range v.Items {
				parts[i] = rec(it)
			}
			return "[" + open + strings.Join(parts, sep) + close + "]"
		case "obj":
			if len(v.Ps) == 0 {
				return "{" + close + "}"
			}
			parts := make([]string, len(v.Ps))
			for i, p := range v.Ps {
				cp := []int{}
				for _, r := range string(p.K) {
					cp = append(cp, int(r))
				}
				parts[i] = escCP(cp, sp.Esc) + colon + rec(p.V)
			}
			if sp.Order == "reversed" {
				for i, j := 0, len(parts)-1; i < j; i, j = i+1, j-1 {
					parts[i], parts[j] = parts[j], parts[i]
				}
			}
			return "{" + open + strings.Join(parts, sep) + close + "}"
		}
		return v.JSON()
	}
	s := rec(v)
	if sp.WS != "compact" {
		s = " \n" + s + "\t\r\n "
	}
	return s
}

// normAST: the AST with comments / notes removed and rule maps sorted by name (for the rule-order rewrite)
func normAST(n jlib.ASTNode) astNode {
	a := convAST(n)
	var strip func(a *astNode)
	var stripRule func(r *astRule)
	stripRule = func(r *astRule) {
		r.Note = ""
		for i := range r.Items {
			stripRule(&r.Items[i])
		}
		for i := range r.Props {
			stripRule(&r.Props[i])
		}
		sort.SliceStable(r.Props, func(i, j int) bool { return r.Props[i].N < r.Props[j].N })
	}
	strip = func(a *astNode) {
		a.Note = ""
		for i := range a.Rules {
			stripRule(&a.Rules[i])
		}
		sort.SliceStable(a.Rules, func(i, j int) bool { return a.Rules[i].N < a.Rules[j].N })
		for i := range a.Children {
			strip(&a.Children[i])
		}
	}
	strip(&a)
	return a
}

type c13Mismatch struct {
	What   string `json:"what"`
	House  string `json:"house"`
	Spell  string `json:"spelling"`
	Layout Layout `json:"layout"`
	Doc    string `json:"doc,omitempty"`
	Detail string `json:"detail"`
}

// c13alt: hand-written compact spellings (GenSpell.tla) against the house-style rendering of the same abstract schema.
func init() {
	register("c13alt", func(args []string) int {
		fs := flag.NewFlagSet("c13alt", flag.ExitOnError)
		casesPath := fs.String("cases", "", "cases {schema, env, alt}")
		out := fs.String("out", "-", "mismatches")
		fs.Parse(args)
		w := newNDWriter(*out)
		defer w.Close()
		n, mism := 0, 0
		readLines(openIn(*casesPath), func(line []byte) {
			var c struct {
				Schema Node   `json:"schema"`
				Env    Env    `json:"env"`
				Alt    string `json:"alt"`
			}
			if err := json.Unmarshal(line, &c); err != nil {
				fatal(err)
			}
			n++
			house, hr, err := buildSchema(c.Schema, c.Env, false, true)
			if err != nil {
				fatal("GenSpell: house rendering cannot be built: " + err.Error())
			}
			alt := jschema.New("root", c.Alt)
			hc, ac := guard(house.Check), guard(alt.Check)
			bad := func(what, detail string) {
				mism++
				w.Write(c13Mismatch{what, hr.Text, c.Alt, houseLayout, "", detail})
			}
			if hc.OK != ac.OK || ac.Kind == "panic" {
				bad("check", fmt.Sprintf("house style %v, this spelling: %d %s%s", hc.OK, ac.Code, ac.Msg, ac.Panic))
				return
			}
			if !hc.OK {
				return
			}
			ha, e1 := house.GetAST()
			aa, e2 := alt.GetAST()
			if e1 != nil || e2 != nil {
				bad("ast", fmt.Sprintf("GetAST: %v / %v", e1, e2))
				return
			}
			hj, _ := json.Marshal(convAST(ha))
			aj, _ := json.Marshal(convAST(aa))
			if string(hj) != string(aj) {
				bad("ast", fmt.Sprintf("house %s this %s", hj, aj))
			}
			hx, _ := house.Example()
			ax, _ := alt.Example()
			if string(hx) != string(ax) {
				bad("example", fmt.Sprintf("house %s this %s", hx, ax))
			}
		})
		fmt.Fprintf(os.Stderr, "@@SUMMARY {\"cases\": %d, \"mismatches\": %d}\n", n, mism)
		return 0
	})
}

func init() {
	register("c13replay", func(args []string) int {
		fs := flag.NewFlagSet("c13replay", flag.ExitOnError)
		docsPath := fs.String("docs", "", "documents")
		casesPath := fs.String("cases", "", "cases")
		layoutsPath := fs.String("layouts", "", "layout vectors + doc spellings (tagged lines LAYOUT / DOCSPELL)")
		stride := fs.Int("stride", 5, "use every n-th case")
		docStride := fs.Int("docstride", 7, "use every n-th document")
		out := fs.String("out", "-", "mismatches")
		fs.Parse(args)
		var layouts []Layout
		var spells []docSpell
		readLines(openIn(*layoutsPath), func(line []byte) {
			s := string(line)
			if strings.HasPrefix(s, "LAYOUT ") {
				m := map[string]string{}
				if err := json.Unmarshal([]byte(s[7:]), &m); err != nil {
					fatal(err)
				}
				layouts = append(layouts, layoutFromSpec(m))
			} else if strings.HasPrefix(s, "DOCSPELL ") {
				var d docSpell
				if err := json.Unmarshal([]byte(s[9:]), &d); err != nil {
					fatal(err)
				}
				spells = append(spells, d)
			}
		})
		var docs []Value
		readLines(openIn(*docsPath), func(line []byte) {
			var d struct {
				I int   `json:"i"`
				V Value `json:"v"`
			}
			if err := json.Unmarshal(line, &d); err != nil {
				fatal(err)
			}
			for len(docs) < d.I {
				docs = append(docs, Value{})
			}
			docs[d.I-1] = d.V
		})
		var cases []semCase
		var full []bool // every n-th schema goes through all layouts; the others only through the document spellings that change the text
		k := 0
		readLines(openIn(*casesPath), func(line []byte) {
			k++
			var c semCase
			if err := json.Unmarshal(line, &c); err != nil {
				fatal(err)
			}
			cases = append(cases, c)
			full = append(full, k%*stride == 0)
		})
		w := newNDWriter(*out)
		defer w.Close()
		var spellings, validations, mism int64
		parallelFor(len(cases), func(ci int) {
			c := cases[ci]
			house, hr, err := buildSchema(c.Schema, c.Env, c.Opt, true)
			if err != nil || house.Check() != nil {
				return
			}
			hast, err := house.GetAST()
			if err != nil {
				return
			}
			hn, _ := json.Marshal(normAST(hast))
			// documents: a stride through the vector, always including one accepted and one rejected document when there are any
			var dsel []int
			stride := *docStride
			nsc := 0
			for _, p := range c.Schema.Props {
				if p.Sc {
					nsc++
				}
			}
			if nsc >= 2 {
				stride = 1 // several key shortcuts in one object: which of them a key belongs to must not depend on the order of the document
			}
			for di := ci % stride; di < len(c.Verdicts); di += stride {
				dsel = append(dsel, di)
			}
			_ = stride
			for _, want := range []int{1, 0} {
				for di, v := range c.Verdicts {
					if v == want {
						dsel = append(dsel, di)
						break
					}
				}
			}
			if !full[ci] {
				dsel = nil
			}
			// ... and up to three ACCEPTED documents in which an escape spelling changes the text (a solidus, a quote, a backslash, a control
			// character): respelling may not turn them into rejected ones
			for k, added := 0, 0; k < len(c.Verdicts) && added < 3; k++ {
				di := (ci + k) % len(c.Verdicts)
				if di < len(docs) && c.Verdicts[di] == 1 && hasEscapable(docs[di]) && !containsInt(dsel, di) {
					dsel = append(dsel, di)
					added++
				}
			}
			for _, l := range layouts {
				if !full[ci] {
					break
				}
				atomic.AddInt64(&spellings, 1)
				s, rr, err := buildSchemaL(c.Schema, c.Env, c.Opt, true, l)
				var chk Outcome
				if err != nil {
					chk = outcomeOf(err)
				} else {
					chk = guard(s.Check)
				}
				if !chk.OK {
					atomic.AddInt64(&mism, 1)
					w.Write(c13Mismatch{"check", hr.Text, rr.Text, l, "", fmt.Sprintf("house style accepted, this spelling: %d %s%s", chk.Code, chk.Msg, chk.Panic)})
					continue
				}
				ast, err := s.GetAST()
				if err != nil {
					atomic.AddInt64(&mism, 1)
					w.Write(c13Mismatch{"ast", hr.Text, rr.Text, l, "", "GetAST: " + err.Error()})
					continue
				}
				if sn, _ := json.Marshal(normAST(ast)); string(sn) != string(hn) {
					atomic.AddInt64(&mism, 1)
					w.Write(c13Mismatch{"ast", hr.Text, rr.Text, l, "", "AST differs: " + string(sn) + " vs " + string(hn)})
				}
				for _, di := range dsel {
					want := c.Verdicts[di]
					d := docs[di].JSON()
					got := guard(func() error { return s.Validate(jdoc.New("d", d)) })
					atomic.AddInt64(&validations, 1)
					if got.Kind == "panic" || (want != 2 && got.OK != (want == 1)) {
						atomic.AddInt64(&mism, 1)
						w.Write(c13Mismatch{"verdict", hr.Text, rr.Text, l, d, fmt.Sprintf("want %d got %v %s%s", want, got.OK, got.Msg, got.Panic)})
					}
				}
			}
			// document spellings against the house-style schema
			for _, di := range dsel {
				want := c.Verdicts[di]
				base := guard(func() error { return house.Validate(jdoc.New("d", docs[di].JSON())) })
				for _, sp := range spells {
					if sp.Order == "reversed" && hasDupKeys(docs[di]) {
						continue
					}
					d := spellDoc(docs[di], sp)
					got := guard(func() error { return house.Validate(jdoc.New("d", d)) })
					atomic.AddInt64(&validations, 1)
					if got.Kind == "panic" || got.OK != base.OK || (want != 2 && got.OK != (want == 1)) {
						atomic.AddInt64(&mism, 1)
						w.Write(c13Mismatch{"doc-spelling", hr.Text, hr.Text, houseLayout, d, fmt.Sprintf("want %d, compact spelling %v, this spelling %v %s%s", want, base.OK, got.OK, got.Msg, got.Panic)})
					}
				}
			}
		})
		b, _ := json.Marshal(map[string]int64{"schemas": int64(len(cases)), "spellings": spellings, "validations": validations, "mismatches": mism})
		fmt.Fprintln(os.Stderr, "@@SUMMARY "+string(b))
		return 0
	})
}
