package main

// C14: Len(). Plumbing: build texts S + separator + tail (and truncations / mutations), call the three Len()
// implementations and log the calls; TraceLen.tla decides (automaton for plain JSON texts, domain table otherwise).

import (
	"encoding/json"
	"flag"
	"fmt"
	"os"
	"strings"

	jdoc "github.com/jsightapi/jsight-schema-go-library/formats/json"
	"github.com/jsightapi/jsight-schema-go-library/notations/jschema"
	"github.com/jsightapi/jsight-schema-go-library/rules/enum"
)

var lenSeps = []struct{ s, class string }{
	{"", "none"}, {" ", "sp"}, {"\t", "sp"}, {"   ", "sp"}, {"\n", "nl"}, {"\r\n", "nl"}, {"\n\n", "nl"}, {" \n  ", "nl"}, {"\r\n\r\n\t", "nl"},
}
var lenTails = []struct{ s, class string }{
	{"x", "alpha"}, {"GET /cats", "alpha"}, {"200", "digit"}, {"@t", "at"}, {"TYPE @x", "alpha"}, {"Body\n{}", "alpha"},
	// a one-byte foreign word followed by a line break, a blank, an annotation or a comment start
	{"X\nmore", "alpha"}, {"x y", "alpha"}, {"a/b", "alpha"}, {"a#b", "alpha"}, {"Q\r\n", "alpha"}, {"7\n8", "digit"}, {"x//y\n", "alpha"}, {"x/*y*/", "alpha"},
}

func lastClassOfNode(n Node) string {
	annotated := len(n.Rules) > 0 || n.Note != ""
	switch n.T {
	case "lit":
		if annotated {
			return "annot"
		}
		switch n.V.T {
		case "num":
			return "num"
		case "str":
			return "quote"
		default:
			return "word"
		}
	case "ref":
		if annotated {
			return "annot"
		}
		return "ref"
	case "obj":
		if len(n.Props) == 0 && annotated {
			return "annot"
		}
		return "brace"
	case "arr":
		if len(n.Items) == 0 && annotated {
			return "annot"
		}
		return "bracket"
	}
	return "?"
}

var lenPrelude int

type lenOut struct {
	OK  bool
	Len int
	Msg string
}

func callLen(dialect string, text string) lenOut {
	var l uint
	o := guard(func() error {
		var err error
		switch dialect {
		case "json":
			d := jdoc.New("d", text, jdoc.AllowTrailingNonSpaceCharacters())
			// public calls issued on the same Document before Len(): the result must not depend on them
			lenPrelude++
			switch lenPrelude % 4 {
			case 1:
				_ = d.Check()
			case 2:
				for k := 0; k < 10*len(text)+10; k++ {
					if _, e := d.NextLexeme(); e != nil {
						break
					}
				}
			case 3:
				_, _ = d.NextLexeme()
				_, _ = d.NextLexeme()
			}
			l, err = d.Len()
		case "schema":
			l, err = jschema.New("s", text).Len()
		case "enum":
			l, err = enum.New("e", text).Len()
		}
		return err
	})
	if o.Kind == "panic" {
		return lenOut{false, -1, "panic: " + o.Panic}
	}
	return lenOut{o.OK, int(l), o.Msg}
}

// c14slen: Schema.Len on texts built from the reference automaton of the schema notation (graph exported by SchemaRef.tla):
// the access string of every state, followed by a separator and a foreign tail. Only plumbing: TraceSchemaLen.tla judges.
func init() {
	register("c14slen", func(args []string) int {
		fs := flag.NewFlagSet("c14slen", flag.ExitOnError)
		gpath := fs.String("graph", "", "graph json")
		out := fs.String("out", "-", "trace")
		dialect := fs.String("dialect", "schema", "schema | enum")
		fs.Parse(args)
		var g graph
		data, err := os.ReadFile(*gpath)
		if err != nil {
			fatal(err)
		}
		if err := json.Unmarshal(data, &g); err != nil {
			fatal(err)
		}
		acc := g.access()
		w := newNDWriter(*out)
		defer w.Close()
		n, panics := 0, 0
		seen := map[string]bool{}
		for s := 0; s < g.N; s++ {
			if acc[s] == nil || g.Verdict[s] == "unspec" {
				continue
			}
			for _, sep := range lenSeps {
				for _, tail := range lenTails {
					text := string(acc[s]) + sep.s + tail.s
					if seen[text] {
						continue
					}
					seen[text] = true
					lo := callLen(*dialect, text)
					if strings.HasPrefix(lo.Msg, "panic") {
						panics++
					}
					w.Write(map[string]interface{}{"bytes": bytesToInts([]byte(text)), "ok": lo.OK, "len": lo.Len, "text": text, "msg": lo.Msg})
					n++
				}
			}
		}
		fmt.Fprintf(os.Stderr, "@@SUMMARY {\"calls\": %d, \"panics\": %d}\n", n, panics)
		return 0
	})
}

func init() {
	register("c14trace", func(args []string) int {
		fs := flag.NewFlagSet("c14trace", flag.ExitOnError)
		casesPath := fs.String("cases", "", "comma separated schema case files (semCase shape)")
		enumCases := fs.String("enums", "", "GenNamed case file")
		n := fs.Int("n", 300, "random JSON texts")
		out := fs.String("out", "-", "trace")
		fs.Parse(args)
		w := newNDWriter(*out)
		defer w.Close()
		r := newRand(14)
		panics := 0
		logJ := func(dialect, call, text string) {
			lo := callLen(call, text)
			if strings.HasPrefix(lo.Msg, "panic") {
				panics++
			}
			w.Write(map[string]interface{}{"dialect": dialect, "bytes": bytesToInts([]byte(text)), "ok": lo.OK, "len": lo.Len, "text": text, "msg": lo.Msg})
		}
		// 1. plain JSON texts through all three Len()s, with separators / tails, truncations and byte mutations
		for i := 0; i < *n; i++ {
			g := &jsonGen{r: r, maxDepth: 3, maxWidth: 3, exp: i%2 == 0, ws: i%3 == 0}
			toks := g.doc()
			for len(toks) > 0 && toks[0].C == "ws" {
				toks = toks[1:]
			}
			for len(toks) > 0 && toks[len(toks)-1].C == "ws" {
				toks = toks[:len(toks)-1]
			}
			S := tokText(toks)
			if len(S) > 300 {
				continue
			}
			sep := lenSeps[r.Intn(len(lenSeps))]
			tail := lenTails[r.Intn(len(lenTails))]
			texts := []string{S, S + sep.s + tail.s, S + sep.s, S[:r.Intn(len(S)+1)]}
			mutated := -1
			var mutChar byte
			if len(S) > 1 {
				b := []byte(S)
				mutChar = interesting[r.Intn(len(interesting))]
				b[r.Intn(len(b))] = mutChar
				mutated = len(texts)
				texts = append(texts, string(b)+sep.s+tail.s)
			}
			th := make([]tokH, len(toks))
			for j, t := range toks {
				th[j] = tokH{C: t.C, H: t.S, N: t.N}
			}
			for ti, t := range texts {
				logJ("json", "json", t)
				if ti == mutated && (mutChar == 'e' || mutChar == 'E') {
					continue // the mutation may have produced an exponent, which the schema notation refuses: outside the common language
				}
				if !g.exp && !strings.ContainsAny(t, "/#@|") {
					logJ("schemaj", "schema", t)
					if ti == mutated && !strings.HasPrefix(strings.TrimLeft(t, " \t\r\n"), "[") {
						continue // an enum rule is an array: the mutated text is no enum any more
					}
					if isScalarArray(th) && distinctItems(th, func(t tokH) string { return t.H }) {
						logJ("enumj", "enum", t)
					}
				}
			}
		}
		// 2. generated schemas (rules, types, notes) x separators x tails, judged by the domain table
		for _, path := range strings.Split(*casesPath, ",") {
			if path == "" {
				continue
			}
			k := 0
			readLines(openIn(path), func(line []byte) {
				k++
				if k%3 != 0 {
					return
				}
				var c semCase
				if err := json.Unmarshal(line, &c); err != nil {
					fatal(err)
				}
				s, rr, err := buildSchema(c.Schema, c.Env, c.Opt, true)
				if err != nil || s.Check() != nil {
					return
				}
				S := rr.Text
				last := lastClassOfNode(c.Schema)
				for si, sep := range lenSeps {
					tail := lenTails[(k+si)%len(lenTails)]
					lo := callLen("schema", S+sep.s+tail.s)
					if strings.HasPrefix(lo.Msg, "panic") {
						panics++
					}
					w.Write(map[string]interface{}{"dialect": "schema", "slen": len(S), "last": last, "sep": sep.class, "tail": tail.class,
						"ok": lo.OK, "len": lo.Len, "text": S + sep.s + tail.s, "msg": lo.Msg})
				}
			})
		}
		// 3. enum rules in four layouts
		if *enumCases != "" {
			k := 0
			readLines(openIn(*enumCases), func(line []byte) {
				var c c18Case
				if err := json.Unmarshal(line, &c); err != nil {
					fatal(err)
				}
				if c.Kind != "enum" || c.Dup {
					return
				}
				k++
				S := strings.TrimSpace(enumText(c.Items, c.Layout))
				for si, sep := range lenSeps {
					tail := lenTails[(k+si)%len(lenTails)]
					lo := callLen("enum", S+sep.s+tail.s)
					w.Write(map[string]interface{}{"dialect": "enum", "slen": len(S), "last": "bracket", "sep": sep.class, "tail": tail.class,
						"ok": lo.OK, "len": lo.Len, "text": S + sep.s + tail.s, "msg": lo.Msg})
				}
			})
		}
		fmt.Fprintf(os.Stderr, "@@SUMMARY {\"panics\": %d}\n", panics)
		return 0
	})
}
