package main

import (
	"math/rand"
	"strconv"
	"strings"
)

// Tok is one lexical token of a JSON text (DESIGN Appendix A.1): class + spelling + byte length.
type Tok struct {
	C string `json:"c"` // ws { } [ ] , : str key num true false null
	S string `json:"s"`
	N int    `json:"n"`
}

type jsonGen struct {
	r        *rand.Rand
	maxDepth int
	maxWidth int
	exp      bool // allow exponents
	ws       bool // random inter-token whitespace
}

var wsChoices = []string{" ", "  ", "\t", "\n", "\r\n", " \n  ", "\r"}

func (g *jsonGen) maybeWS(out *[]Tok) {
	if !g.ws {
		return
	}
	if g.r.Intn(3) == 0 {
		s := wsChoices[g.r.Intn(len(wsChoices))]
		*out = append(*out, Tok{"ws", s, len(s)})
	}
}

var strPieces = []string{"a", "b", "xyz", " ", "\\n", "\\\"", "\\\\", "\\/", "\\b", "\\f", "\\r", "\\t", "\\u0041", "\\u00e9", "\\uD83D\\uDE00",
	"é", "€", "😀", "0", "1", "{", "}", "[", "]", ",", ":", "/", "#", "@", "e", "E", ".", "-", "+", "true", "null", "\x7f"}

func (g *jsonGen) str() string {
	n := g.r.Intn(5)
	if g.r.Intn(20) == 0 {
		n = 5 + g.r.Intn(40)
	}
	var sb strings.Builder
	sb.WriteByte('"')
	for i := 0; i < n; i++ {
		sb.WriteString(strPieces[g.r.Intn(len(strPieces))])
	}
	sb.WriteByte('"')
	return sb.String()
}

func (g *jsonGen) digits(n int, first19 bool) string {
	b := make([]byte, n)
	for i := range b {
		b[i] = byte('0' + g.r.Intn(10))
	}
	if first19 && b[0] == '0' {
		b[0] = byte('1' + g.r.Intn(9))
	}
	return string(b)
}

func (g *jsonGen) num() string {
	var sb strings.Builder
	if g.r.Intn(4) == 0 {
		sb.WriteByte('-')
	}
	if g.r.Intn(4) == 0 {
		sb.WriteByte('0')
	} else {
		sb.WriteString(g.digits(1+g.r.Intn(4), true))
	}
	if g.r.Intn(3) == 0 {
		sb.WriteByte('.')
		sb.WriteString(g.digits(1+g.r.Intn(4), false))
	}
	if g.exp && g.r.Intn(4) == 0 {
		sb.WriteByte("eE"[g.r.Intn(2)])
		switch g.r.Intn(3) {
		case 0:
			sb.WriteByte('+')
		case 1:
			sb.WriteByte('-')
		}
		sb.WriteString(strconv.Itoa(g.r.Intn(30)))
	}
	return sb.String()
}

func (g *jsonGen) value(depth int, out *[]Tok) {
	k := g.r.Intn(8)
	if depth >= g.maxDepth && k < 2 {
		k = 2 + g.r.Intn(6)
	}
	switch k {
	case 0: // object
		*out = append(*out, Tok{"{", "{", 1})
		n := g.r.Intn(g.maxWidth + 1)
		for i := 0; i < n; i++ {
			g.maybeWS(out)
			s := g.str()
			*out = append(*out, Tok{"key", s, len(s)})
			g.maybeWS(out)
			*out = append(*out, Tok{":", ":", 1})
			g.maybeWS(out)
			g.value(depth+1, out)
			g.maybeWS(out)
			if i < n-1 {
				*out = append(*out, Tok{",", ",", 1})
			}
		}
		if n == 0 {
			g.maybeWS(out)
		}
		*out = append(*out, Tok{"}", "}", 1})
	case 1: // array
		*out = append(*out, Tok{"[", "[", 1})
		n := g.r.Intn(g.maxWidth + 1)
		for i := 0; i < n; i++ {
			g.maybeWS(out)
			g.value(depth+1, out)
			g.maybeWS(out)
			if i < n-1 {
				*out = append(*out, Tok{",", ",", 1})
			}
		}
		if n == 0 {
			g.maybeWS(out)
		}
		*out = append(*out, Tok{"]", "]", 1})
	case 2, 3:
		s := g.str()
		*out = append(*out, Tok{"str", s, len(s)})
	case 4, 5:
		s := g.num()
		*out = append(*out, Tok{"num", s, len(s)})
	case 6:
		if g.r.Intn(2) == 0 {
			*out = append(*out, Tok{"true", "true", 4})
		} else {
			*out = append(*out, Tok{"false", "false", 5})
		}
	default:
		*out = append(*out, Tok{"null", "null", 4})
	}
}

// doc generates one JSON text as a token list (with optional surrounding whitespace).
func (g *jsonGen) doc() []Tok {
	var out []Tok
	g.maybeWS(&out)
	g.value(0, &out)
	g.maybeWS(&out)
	return out
}

func tokText(t []Tok) string {
	var sb strings.Builder
	for _, x := range t {
		sb.WriteString(x.S)
	}
	return sb.String()
}
