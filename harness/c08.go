package main

// C08: rule applicability matrix and order independence. Cases (node kind, position, ordered rule list, expected
// verdict) come from TLC (GenChk.tla / Chk.tla); this file renders, calls Check and compares; permutations of one
// rule set must agree with each other whatever the oracle says.

import (
	"encoding/json"
	"flag"
	"fmt"
	"os"
	"sort"
	"strings"
	"sync"
	"sync/atomic"
)

type c08Case struct {
	Kind   string `json:"kind"`
	Pos    string `json:"pos"`
	Rules  []Rule `json:"rules"`
	Schema Node   `json:"schema"`
	Env    Env    `json:"env"`
	Want   string `json:"want"`
}

type c08Mismatch struct {
	What   string  `json:"what"`
	Schema string  `json:"schema"`
	Kind   string  `json:"kind"`
	Pos    string  `json:"pos"`
	Want   string  `json:"want"`
	Got    Outcome `json:"got"`
	Other  string  `json:"other,omitempty"`
}

func init() {
	register("c08replay", func(args []string) int {
		fs := flag.NewFlagSet("c08replay", flag.ExitOnError)
		casesPath := fs.String("cases", "", "cases ndjson")
		out := fs.String("out", "-", "mismatch ndjson")
		fs.Parse(args)
		var cases []c08Case
		readLines(openIn(*casesPath), func(line []byte) {
			var c c08Case
			if err := json.Unmarshal(line, &c); err != nil {
				fatal(fmt.Sprintf("%v in %.300s", err, line))
			}
			cases = append(cases, c)
		})
		w := newNDWriter(*out)
		defer w.Close()
		type res struct {
			ok   bool
			text string
			o    Outcome
		}
		results := make([]res, len(cases))
		var mism, acc, rej, unspec int64
		parallelFor(len(cases), func(i int) {
			c := cases[i]
			s, rr, err := buildSchema(c.Schema, c.Env, false, true)
			var o Outcome
			if err != nil {
				o = outcomeOf(err)
			} else {
				o = guard(s.Check)
			}
			results[i] = res{o.OK, rr.Text, o}
			switch c.Want {
			case "unspec":
				atomic.AddInt64(&unspec, 1)
				if o.Kind == "panic" || o.Kind == "foreign" {
					atomic.AddInt64(&mism, 1)
					w.Write(c08Mismatch{"panic", rr.Text, c.Kind, c.Pos, c.Want, o, ""})
				}
				return
			case "accept":
				atomic.AddInt64(&acc, 1)
			default:
				atomic.AddInt64(&rej, 1)
			}
			if o.Kind == "panic" || o.Kind == "foreign" || o.OK != (c.Want == "accept") {
				atomic.AddInt64(&mism, 1)
				w.Write(c08Mismatch{"verdict", rr.Text, c.Kind, c.Pos, c.Want, o, ""})
			}
		})
		// order independence of the real verdict inside every permutation class
		var mu sync.Mutex
		groups := map[string][]int{}
		for i, c := range cases {
			parts := make([]string, len(c.Rules))
			for j, r := range c.Rules {
				parts[j] = r.N + ":" + r.V.text()
			}
			sort.Strings(parts)
			k := c.Kind + "|" + c.Pos + "|" + strings.Join(parts, ";")
			groups[k] = append(groups[k], i)
		}
		var classes int64
		for _, idx := range groups {
			if len(idx) < 2 {
				continue
			}
			classes++
			for _, j := range idx[1:] {
				if results[j].ok != results[idx[0]].ok {
					mu.Lock()
					mism++
					w.Write(c08Mismatch{"order-dependent", results[j].text, cases[j].Kind, cases[j].Pos, cases[j].Want, results[j].o, results[idx[0]].text})
					mu.Unlock()
					break
				}
			}
		}
		b, _ := json.Marshal(map[string]int64{"cases": int64(len(cases)), "accept": acc, "reject": rej, "unspecified": unspec, "permutation_classes": classes, "mismatches": mism})
		fmt.Fprintln(os.Stderr, "@@SUMMARY "+string(b))
		return 0
	})
}
