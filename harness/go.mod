module verif/harness

go 1.19

require github.com/jsightapi/jsight-schema-go-library v0.0.0

replace github.com/jsightapi/jsight-schema-go-library => /repo
