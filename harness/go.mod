module verif/harness

go 1.19

require github.com/jsightapi/jsight-schema-go-library v0.0.0

require github.com/lucasjones/reggen v0.0.0-20200904144131-37ba4fa293bb

replace github.com/jsightapi/jsight-schema-go-library => /repo
