module verif/harness

go 1.19

require github.com/jsightapi/jsight-schema-go-library v0.0.0

require (
	github.com/lucasjones/reggen v0.0.0-20200904144131-37ba4fa293bb
	github.com/stretchr/testify v1.7.0
)

require (
	github.com/davecgh/go-spew v1.1.0 // indirect
	github.com/pmezard/go-difflib v1.0.0 // indirect
	github.com/stretchr/objx v0.1.0 // indirect
	gopkg.in/yaml.v3 v3.0.0-20200313102051-9f266ea9e77c // indirect
)

replace github.com/jsightapi/jsight-schema-go-library => /repo
