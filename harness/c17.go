package main

// C17 (rendering): Line(), SourceSubString() and the caret line of String() for a file content and a position, each
// under recover; expected values come from TLC (Err.tla / GenErr.tla). -1 / [-1] in the expectation = unspecified.

import (
	"encoding/json"
	"flag"
	"fmt"
	"os"
	"strings"
	"sync/atomic"

	jerr "github.com/jsightapi/jsight-schema-go-library/errors"
	"github.com/jsightapi/jsight-schema-go-library/fs"
	"github.com/jsightapi/jsight-schema-go-library/kit"
	"github.com/jsightapi/jsight-schema-go-library/notations/jschema"
)

type c17Case struct {
	Content []int `json:"content"`
	Pos     int   `json:"pos"`
	Want    struct {
		Conv string `json:"conv"`
		Line int    `json:"line"`
		Text []int  `json:"text"`
		Col  int    `json:"col"`
	} `json:"want"`
}

type c17Mismatch struct {
	Content []int  `json:"content"`
	Pos     int    `json:"pos"`
	What    string `json:"what"`
	Want    string `json:"want"`
	Got     string `json:"got"`
}

type rendered struct {
	Line  int
	Text  string
	Caret string
	Panic string
}

// renderAt renders an error at pos of content. moved: the error value was first rendered against another, longer file with other
// line ends and then pointed at this one (SetFile / SetIndex) - the result is a function of the final file and position only.
func renderAt(content []byte, pos int, moved bool) (r rendered) {
	return renderAtM(content, pos, moved, false)
}

// again: the same error value was rendered at another position of the same file before (SetIndex only).
func renderAtM(content []byte, pos int, moved, again bool) (r rendered) {
	defer func() {
		if p := recover(); p != nil {
			r.Panic = fmt.Sprint(p)
		}
	}()
	f := fs.NewFile("f", content)
	e := jerr.NewDocumentError(f, jerr.Format(jerr.ErrGeneric, "m"))
	if moved {
		other := "aaaa\naaaa\naaaa\naaaa\naaaa\naaaa"
		if !strings.Contains(string(content), "\r") {
			other = strings.ReplaceAll(other, "\n", "\r")
		}
		e = jerr.NewDocumentError(fs.NewFile("g", other), jerr.Format(jerr.ErrGeneric, "m"))
		e.SetIndex(jerrIndex(12))
		_ = e.Line()
		_ = e.SourceSubString()
		e.SetFile(f)
	}
	if again && len(content) > 0 {
		for _, other := range []int{(pos + len(content)/2 + 1) % len(content), len(content) - 1, 0} {
			e.SetIndex(jerrIndex(other))
			_ = e.Line()
			_ = e.SourceSubString()
			_ = e.String()
		}
	}
	e.SetIndex(jerrIndex(pos))
	r.Line = int(e.Line())
	r.Text = e.SourceSubString()
	s := e.String()
	lines := strings.Split(s, "\n\t")
	r.Caret = lines[len(lines)-1]
	_ = e.Error()
	return
}

func init() {
	register("c17render", func(args []string) int {
		fs := flag.NewFlagSet("c17render", flag.ExitOnError)
		casesPath := fs.String("cases", "", "cases ndjson")
		out := fs.String("out", "-", "mismatch ndjson")
		fs.Parse(args)
		var cases []c17Case
		readLines(openIn(*casesPath), func(line []byte) {
			var c c17Case
			if err := json.Unmarshal(line, &c); err != nil {
				fatal(fmt.Sprintf("%v in %.300s", err, line))
			}
			cases = append(cases, c)
		})
		w := newNDWriter(*out)
		defer w.Close()
		var n, mism, panics, specLine, specText, specCol int64
		parallelFor(len(cases), func(i int) {
			c := cases[i]
			atomic.AddInt64(&n, 1)
			content := intsToBytes(c.Content)
			r := renderAtM(content, c.Pos, i%3 == 1, i%3 == 2)
			bad := func(what, want, got string) {
				atomic.AddInt64(&mism, 1)
				w.Write(c17Mismatch{c.Content, c.Pos, what, want, got})
			}
			if r.Panic != "" {
				atomic.AddInt64(&panics, 1)
				bad("panic", "no panic", r.Panic)
				return
			}
			if c.Want.Line >= 0 {
				atomic.AddInt64(&specLine, 1)
				if r.Line != c.Want.Line {
					bad("line", fmt.Sprint(c.Want.Line), fmt.Sprint(r.Line))
				}
			}
			if !(len(c.Want.Text) == 1 && c.Want.Text[0] == -1) {
				atomic.AddInt64(&specText, 1)
				if want := string(intsToBytes(c.Want.Text)); r.Text != want {
					bad("text", fmt.Sprintf("%q", want), fmt.Sprintf("%q", r.Text))
				}
			}
			if c.Want.Col >= 0 {
				atomic.AddInt64(&specCol, 1)
				if want := "--" + strings.Repeat("-", c.Want.Col) + "^"; r.Caret != want {
					bad("caret", want, r.Caret)
				}
			}
		})
		b, _ := json.Marshal(map[string]int64{"cases": n, "mismatches": mism, "panics": panics, "line_specified": specLine, "text_specified": specText, "caret_specified": specCol})
		fmt.Fprintln(os.Stderr, "@@SUMMARY "+string(b))
		return 0
	})
}

// ---- C17 (ii): position of validation errors ----

// jsonWithOffsets renders v compactly and records, per path of 1-based child indexes, the offset of the value and of the key.
func jsonWithOffsets(v Value) (string, map[string]int, map[string]int) {
	var sb strings.Builder
	vals, keys := map[string]int{}, map[string]int{}
	var rec func(v Value, path string)
	rec = func(v Value, path string) {
		vals[path] = sb.Len()
		switch v.T {
		case "arr":
			sb.WriteByte('[')
			for i, it := range v.Items {
				if i > 0 {
					sb.WriteByte(',')
				}
				rec(it, fmt.Sprintf("%s/%d", path, i+1))
			}
			sb.WriteByte(']')
		case "obj":
			sb.WriteByte('{')
			for i, p := range v.Ps {
				if i > 0 {
					sb.WriteByte(',')
				}
				cp := fmt.Sprintf("%s/%d", path, i+1)
				keys[cp] = sb.Len()
				sb.WriteString(quoteKey(string(p.K)))
				sb.WriteByte(':')
				rec(p.V, cp)
			}
			sb.WriteByte('}')
		default:
			sb.WriteString(v.JSON())
		}
	}
	rec(v, "")
	return sb.String(), vals, keys
}

type violT struct {
	Path []int  `json:"path"`
	At   string `json:"at"`
}

func init() {
	register("c17pos", func(args []string) int {
		fs := flag.NewFlagSet("c17pos", flag.ExitOnError)
		docsPath := fs.String("docs", "", "documents")
		casesPath := fs.String("cases", "", "cases")
		out := fs.String("out", "-", "mismatches")
		fs.Parse(args)
		var docs []Value
		readLines(openIn(*docsPath), func(line []byte) {
			var d struct {
				I int   `json:"i"`
				V Value `json:"v"`
			}
			if err := json.Unmarshal(line, &d); err != nil {
				fatal(err)
			}
			for len(docs) < d.I {
				docs = append(docs, Value{})
			}
			docs[d.I-1] = d.V
		})
		type kase struct {
			Schema Node              `json:"schema"`
			Opt    bool              `json:"opt"`
			Viol   []json.RawMessage `json:"viol"`
		}
		var cases []kase
		readLines(openIn(*casesPath), func(line []byte) {
			var c kase
			if err := json.Unmarshal(line, &c); err != nil {
				fatal(err)
			}
			cases = append(cases, c)
		})
		w := newNDWriter(*out)
		defer w.Close()
		var n, mism, rejected int64
		parallelFor(len(cases), func(ci int) {
			c := cases[ci]
			s, rr, err := buildSchema(c.Schema, Env{}, c.Opt, true)
			if err == nil {
				err = s.Check()
			}
			if err != nil {
				if atomic.AddInt64(&rejected, 1) <= 3 {
					fmt.Fprintf(os.Stderr, "schema rejected: %q: %v\n", rr.Text, err)
				}
				return
			}
			for di, raw := range c.Viol {
				if string(raw) == "[]" {
					continue
				}
				var vi violT
				if err := json.Unmarshal(raw, &vi); err != nil {
					fatal(err)
				}
				text, vals, keys := jsonWithOffsets(docs[di])
				pk := ""
				for _, p := range vi.Path {
					pk += fmt.Sprintf("/%d", p)
				}
				want := vals[pk]
				if vi.At == "key" {
					want = keys[pk]
				}
				got := guard(func() error { return s.Validate(jdocNew(text)) })
				atomic.AddInt64(&n, 1)
				if got.OK || got.Kind != "liberr" || got.Pos != want {
					atomic.AddInt64(&mism, 1)
					w.Write(map[string]interface{}{"schema": rr.Text, "doc": text, "want_pos": want, "at": vi.At, "got": got})
				}
			}
		})
		b, _ := json.Marshal(map[string]int64{"located_violations": n, "mismatches": mism, "schemas_rejected": rejected})
		fmt.Fprintln(os.Stderr, "@@SUMMARY "+string(b))
		return 0
	})
}

// c17conv: the error of a type that does not load, as AddType returns it and as kit.ConvertError presents it, names the file, the
// position and the code that the type's own Check reports - for every cut-off prefix of a few type texts.
func init() {
	register("c17conv", func(args []string) int {
		fs0 := flag.NewFlagSet("c17conv", flag.ExitOnError)
		out := fs0.String("out", "-", "mismatch ndjson")
		fs0.Parse(args)
		w := newNDWriter(*out)
		defer w.Close()
		n, mism := 0, 0
		texts := []string{"{\n  \"id\": 1, // {min: 0} - the id\n  \"ok\": true,\n  \"list\": [\n    1, 2\n  ]\n}", "[\n  @t | @u, // {optional: false}\n  \"x\"\n]",
			"\"abc\" /* {enum: [\n  \"abc\", // c\n  \"d\"\n]} */", "{\n  @k: 1 // {or: [{type: \"integer\", min: 1}, \"string\"]}\n}"}
		for _, full := range texts {
			for k := 0; k <= len(full); k++ {
				text := full[:k]
				own, isDoc := jschema.New("@t", text).Check().(jerr.DocumentError)
				root := fs.NewFile("root", `{"a": @t}`)
				r := jschema.FromFile(root)
				e := r.AddType("@t", jschema.New("@t", text))
				if e == nil || !isDoc {
					continue
				}
				n++
				ce := kit.ConvertError(root, e)
				if ce.Filename() != own.Filename() || ce.Position() != own.Position() || ce.ErrCode() != own.ErrCode() {
					mism++
					w.Write(map[string]interface{}{"content": bytesToInts([]byte(text)), "what": "converted AddType error",
						"want": fmt.Sprintf("file %q position %d code %d", own.Filename(), own.Position(), own.ErrCode()),
						"got":  fmt.Sprintf("file %q position %d code %d", ce.Filename(), ce.Position(), ce.ErrCode())})
				}
			}
		}
		fmt.Fprintf(os.Stderr, "@@SUMMARY {\"converted\": %d, \"mismatches\": %d}\n", n, mism)
		return 0
	})
}
