package main

import (
	jlib "github.com/jsightapi/jsight-schema-go-library"
	"github.com/jsightapi/jsight-schema-go-library/bytes"
	jdoc "github.com/jsightapi/jsight-schema-go-library/formats/json"
)

func jerrIndex(i int) bytes.Index { return bytes.Index(i) }

func jdocNew(text string) jlib.Document { return jdoc.New("doc", text) }

func jdocNewOpt(b []byte, trailing bool) jlib.Document {
	if trailing {
		return jdoc.New("doc", b, jdoc.AllowTrailingNonSpaceCharacters())
	}
	return jdoc.New("doc", b)
}
