// Command harness binds the TLA+ specification in /verif/spec to the Go code in /repo.
// It is plumbing: it renders abstract cases to concrete calls of the real API, runs them,
// abstracts the results back and reports them. Expectations always come from TLC
// (exported graphs, @@CASE lines) or are checked by TLC afterwards (ndjson traces).
package main

import (
	"fmt"
	"os"
)

type cmdFunc func(args []string) int

var commands = map[string]cmdFunc{}

func register(name string, f cmdFunc) { commands[name] = f }

func main() {
	if len(os.Args) < 2 {
		fmt.Fprintln(os.Stderr, "usage: harness <command> [args]")
		os.Exit(2)
	}
	f, ok := commands[os.Args[1]]
	if !ok {
		fmt.Fprintln(os.Stderr, "unknown command", os.Args[1])
		os.Exit(2)
	}
	os.Exit(f(os.Args[2:]))
}
