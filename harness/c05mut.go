package main

import (
	"flag"
)

// c05mut: mechanism B for C05. Generates valid documents, mutates them at byte level, runs the real
// Document.Check in both modes and logs {bytes, trailing, ok}; TLC (TraceJsonText) decides.
var interesting = []byte(`{}[],:"\-01.eE+ tnfu/x9aAfF` + "\x00\x1f\x20\x7f\x80\xc3\xa9\xff\n\r\t")

func init() {
	register("c05mut", func(args []string) int {
		fs := flag.NewFlagSet("c05mut", flag.ExitOnError)
		n := fs.Int("n", 100, "documents")
		out := fs.String("out", "-", "trace")
		fs.Parse(args)
		w := newNDWriter(*out)
		defer w.Close()
		r := newRand(5)
		g := &jsonGen{r: r, maxDepth: 6, maxWidth: 5, exp: true, ws: true}
		for i := 0; i < *n; i++ {
			if i%10 == 9 {
				g.maxDepth, g.maxWidth = 9, 9 // occasionally large (up to a few KiB)
			} else {
				g.maxDepth, g.maxWidth = 4, 4
			}
			b := []byte(tokText(g.doc()))
			if len(b) > 4096 {
				b = b[:4096]
			}
			m := r.Intn(4) // number of mutations; 0 keeps it valid
			for k := 0; k < m && len(b) > 0; k++ {
				p := r.Intn(len(b))
				switch r.Intn(6) {
				case 0:
					b[p] = interesting[r.Intn(len(interesting))]
				case 1:
					b = b[:p] // truncate
				case 2:
					b = append(b[:p], b[p+1:]...)
				case 3:
					c := interesting[r.Intn(len(interesting))]
					b = append(b[:p], append([]byte{c}, b[p:]...)...)
				case 4: // duplicate a slice
					q := p + r.Intn(len(b)-p)
					seg := append([]byte{}, b[p:q]...)
					b = append(b[:q], append(seg, b[q:]...)...)
				case 5: // append trailing text
					b = append(b, interesting[r.Intn(len(interesting))])
				}
			}
			trailing := r.Intn(2) == 0
			// every third document is first read to the end through NextLexeme: Check must not depend on the cursor
			var o Outcome
			if i%3 == 1 {
				o = guard(func() error {
					d := jdocNewOpt(b, trailing)
					for k := 0; k < 10*len(b)+10; k++ {
						if _, e := d.NextLexeme(); e != nil {
							break
						}
					}
					return d.Check()
				})
			} else {
				o = checkDoc(b, trailing)
			}
			w.Write(map[string]interface{}{"bytes": bytesToInts(b), "trailing": trailing, "ok": o.OK, "kind": o.Kind, "pos": o.Pos, "drain": i%3 == 1})
		}
		return 0
	})
}
