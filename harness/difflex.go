package main

// difflex: differential amplification at the byte level (C05, C14, C17). The frozen copy (harness/ref) and the current tree
// scan the same texts - prefixes and byte mutations of the repository's testdata files, rendered random schemas with foreign
// tails, random JSON documents. Only the calls on which they differ are logged, in the line formats of the existing trace
// modules (TraceJsonText, TraceLen, TraceSchemaLen, TraceEnumLen), where the reference acceptors decide.

import (
	"encoding/json"
	"flag"
	"fmt"
	"math/rand"
	"os"
	"path/filepath"
	"sort"
	"strings"
	"sync/atomic"
	"time"

	jdoc "github.com/jsightapi/jsight-schema-go-library/formats/json"
	"github.com/jsightapi/jsight-schema-go-library/notations/jschema"
	"github.com/jsightapi/jsight-schema-go-library/rules/enum"

	rdoc "verif/harness/ref/formats/json"
	rschema "verif/harness/ref/notations/jschema"
	renum "verif/harness/ref/rules/enum"
)

type lexOut struct {
	ok   bool
	code int
	pos  int
	n    int
	pan  string
}

func lexCall(f func() (uint, error)) (o lexOut) {
	defer func() {
		if r := recover(); r != nil {
			o = lexOut{pan: fmt.Sprint(r)}
		}
	}()
	n, err := f()
	if err == nil {
		return lexOut{ok: true, n: int(n), pos: -1}
	}
	oc := outcomeOf(err)
	return lexOut{code: oc.Code, pos: oc.Pos}
}

func init() {
	register("difflex", func(args []string) int {
		fs := flag.NewFlagSet("difflex", flag.ExitOnError)
		corpus := fs.String("corpus", "", "directory with sample files")
		n := fs.Int("n", 20000, "texts")
		dir := fs.String("outdir", ".", "directory for the four trace files")
		fs.Parse(args)
		wj := newNDWriter(filepath.Join(*dir, "diff-jsoncheck.ndjson"))
		wl := newNDWriter(filepath.Join(*dir, "diff-jsonlen.ndjson"))
		ws := newNDWriter(filepath.Join(*dir, "diff-schemalen.ndjson"))
		we := newNDWriter(filepath.Join(*dir, "diff-enumlen.ndjson"))
		defer wj.Close()
		defer wl.Close()
		defer ws.Close()
		defer we.Close()
		var files [][]byte
		if *corpus != "" {
			var names []string
			filepath.Walk(*corpus, func(p string, info os.FileInfo, err error) error {
				if err == nil && !info.IsDir() && info.Size() < 3000 && info.Size() > 0 {
					names = append(names, p)
				}
				return nil
			})
			sort.Strings(names)
			for _, p := range names {
				if b, err := os.ReadFile(p); err == nil {
					files = append(files, b)
				}
			}
		}
		var texts, diffs, schemaCheckDiffs int64
		hw := newHangWatch(60*time.Second, nil)
		parallelFor(*n, func(i int) {
			r := rand.New(rand.NewSource(seed()*104729 + int64(i)))
			var b []byte
			switch {
			case len(files) > 0 && i%3 != 2:
				src := files[r.Intn(len(files))]
				b = append([]byte{}, src...)
				if r.Intn(3) == 0 && len(b) > 0 {
					b = b[:r.Intn(len(b)+1)]
				}
			case i%3 == 2 && i%2 == 0:
				g := &wideGen{r: r}
				b = []byte(renderSchemaL(g.node(0), houseLayout).Text)
			default:
				g := &jsonGen{r: r, maxDepth: 3, maxWidth: 3, exp: r.Intn(2) == 0, ws: r.Intn(2) == 0}
				b = []byte(tokText(g.doc()))
			}
			for k := r.Intn(3); k > 0 && len(b) > 0; k-- {
				p := r.Intn(len(b))
				switch r.Intn(4) {
				case 0:
					b[p] = mutAlpha[r.Intn(len(mutAlpha))]
				case 1:
					b = append(b[:p:p], b[p+1:]...)
				case 2:
					c := insAlpha[r.Intn(len(insAlpha))]
					b = append(b[:p:p], append([]byte{c}, b[p:]...)...)
				}
			}
			if r.Intn(3) == 0 {
				b = append(b, []byte(lenSeps[r.Intn(len(lenSeps))].s+lenTails[r.Intn(len(lenTails))].s)...)
			}
			if len(b) > 4096 {
				return
			}
			atomic.AddInt64(&texts, 1)
			hid := hw.begin(b)
			defer hw.end(hid)
			t := string(b)
			ints := bytesToInts(b)
			// JSON document: Check with and without trailing text, Len
			for _, trailing := range []bool{false, true} {
				var c, f lexOut
				if trailing {
					c = lexCall(func() (uint, error) { return 0, jdoc.New("d", t, jdoc.AllowTrailingNonSpaceCharacters()).Check() })
					f = lexCall(func() (uint, error) { return 0, rdoc.New("d", t, rdoc.AllowTrailingNonSpaceCharacters()).Check() })
				} else {
					c = lexCall(func() (uint, error) { return 0, jdoc.New("d", t).Check() })
					f = lexCall(func() (uint, error) { return 0, rdoc.New("d", t).Check() })
				}
				if c.ok != f.ok || c.pos != f.pos || c.pan != "" {
					atomic.AddInt64(&diffs, 1)
					wj.Write(map[string]interface{}{"bytes": ints, "trailing": trailing, "ok": c.ok && c.pan == "", "pos": c.pos, "panic": c.pan, "text": t})
				}
			}
			{
				c := lexCall(func() (uint, error) { return jdoc.New("d", t, jdoc.AllowTrailingNonSpaceCharacters()).Len() })
				f := lexCall(func() (uint, error) { return rdoc.New("d", t, rdoc.AllowTrailingNonSpaceCharacters()).Len() })
				if c.ok != f.ok || c.n != f.n || c.pan != "" {
					atomic.AddInt64(&diffs, 1)
					wl.Write(map[string]interface{}{"dialect": "json", "bytes": ints, "ok": c.ok && c.pan == "", "len": c.n, "text": t, "msg": c.pan})
				}
			}
			{
				c := lexCall(func() (uint, error) { return jschema.New("s", t).Len() })
				f := lexCall(func() (uint, error) { return rschema.New("s", t).Len() })
				if c.ok != f.ok || c.n != f.n || c.pan != "" {
					atomic.AddInt64(&diffs, 1)
					ws.Write(map[string]interface{}{"bytes": ints, "ok": c.ok && c.pan == "", "len": c.n, "text": t, "msg": c.pan})
				}
			}
			if strings.HasPrefix(strings.TrimLeft(t, " \t\r\n"), "[") {
				c := lexCall(func() (uint, error) { return enum.New("e", t).Len() })
				f := lexCall(func() (uint, error) { return renum.New("e", t).Len() })
				if c.ok != f.ok || c.n != f.n || c.pan != "" {
					atomic.AddInt64(&diffs, 1)
					we.Write(map[string]interface{}{"bytes": ints, "ok": c.ok && c.pan == "", "len": c.n, "text": t, "msg": c.pan})
				}
			}
			{
				c := lexCall(func() (uint, error) { return 0, jschema.New("s", t).Check() })
				f := lexCall(func() (uint, error) { return 0, rschema.New("s", t).Check() })
				if c.ok != f.ok || c.code != f.code || c.pos != f.pos {
					atomic.AddInt64(&schemaCheckDiffs, 1)
				}
			}
		})
		sb, _ := json.Marshal(map[string]interface{}{"texts": texts, "differences": diffs, "schema_check_differences": schemaCheckDiffs})
		fmt.Fprintln(os.Stderr, "@@SUMMARY "+string(sb))
		return 0
	})
}
