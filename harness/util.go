package main

import (
	"bufio"
	"encoding/json"
	"fmt"
	"io"
	"math/rand"
	"os"
	"runtime"
	"strconv"
	"sync"
	"sync/atomic"
	"time"

	jerr "github.com/jsightapi/jsight-schema-go-library/errors"
)

func seed() int64 {
	if s := os.Getenv("VERIF_SEED"); s != "" {
		if v, err := strconv.ParseInt(s, 10, 64); err == nil {
			return v
		}
	}
	return 1
}

func newRand(salt int64) *rand.Rand { return rand.New(rand.NewSource(seed()*1000003 + salt)) }

func workers() int { return runtime.NumCPU() }

// parallelFor runs f(i) for i in [0,n) on all cores.
func parallelFor(n int, f func(i int)) {
	w := workers()
	if w > n {
		w = n
	}
	if w <= 1 {
		for i := 0; i < n; i++ {
			f(i)
		}
		return
	}
	var wg sync.WaitGroup
	ch := make(chan int, 1024)
	for k := 0; k < w; k++ {
		wg.Add(1)
		go func() {
			defer wg.Done()
			for i := range ch {
				f(i)
			}
		}()
	}
	for i := 0; i < n; i++ {
		ch <- i
	}
	close(ch)
	wg.Wait()
}

// Outcome is the abstraction of an error value returned by the library.
type Outcome struct {
	OK    bool   `json:"ok"`
	Code  int    `json:"code"`
	Pos   int    `json:"pos"`
	Kind  string `json:"kind,omitempty"` // "", liberr, foreign, panic
	Msg   string `json:"msg,omitempty"`
	Panic string `json:"panic,omitempty"`
	File  string `json:"file,omitempty"` // the file the error names (library errors that have one)
	IUT   string `json:"iut,omitempty"`  // the user type the error names (IncorrectUserType), if any
}

type libErr interface {
	error
	Position() uint
	Message() string
	ErrCode() int
}

func outcomeOf(err error) Outcome {
	if err == nil {
		return Outcome{OK: true, Pos: -1}
	}
	var le libErr
	if asLib(err, &le) {
		o := Outcome{Code: le.ErrCode(), Pos: int(le.Position()), Kind: "liberr", Msg: le.Message()}
		if fn, ok := le.(interface{ Filename() string }); ok {
			o.File = fn.Filename()
		}
		if ut, ok := le.(interface{ IncorrectUserType() string }); ok {
			o.IUT = ut.IncorrectUserType()
		}
		return o
	}
	if ve, ok := err.(interface {
		ErrCode() int
		Message() string
	}); ok {
		return Outcome{Code: ve.ErrCode(), Pos: -1, Kind: "liberr", Msg: ve.Message()}
	}
	return Outcome{Code: -1, Pos: -1, Kind: "foreign", Msg: fmt.Sprintf("%T: %v", err, err)}
}

func asLib(err error, target *libErr) bool {
	for err != nil {
		if le, ok := err.(libErr); ok {
			*target = le
			return true
		}
		if de, ok := err.(jerr.DocumentError); ok {
			*target = de
			return true
		}
		u, ok := err.(interface{ Unwrap() error })
		if !ok {
			return false
		}
		err = u.Unwrap()
	}
	return false
}

// guard runs f and converts a panic into an Outcome.
func guard(f func() error) (o Outcome) {
	defer func() {
		if r := recover(); r != nil {
			o = Outcome{Kind: "panic", Code: -2, Pos: -1, Panic: fmt.Sprint(r)}
		}
	}()
	return outcomeOf(f())
}

type ndWriter struct {
	mu sync.Mutex
	w  *bufio.Writer
	f  *os.File
}

func newNDWriter(path string) *ndWriter {
	if path == "" || path == "-" {
		return &ndWriter{w: bufio.NewWriterSize(os.Stdout, 1<<20)}
	}
	f, err := os.Create(path)
	if err != nil {
		fatal(err)
	}
	return &ndWriter{w: bufio.NewWriterSize(f, 1<<20), f: f}
}

func (n *ndWriter) Write(v interface{}) {
	b, err := json.Marshal(v)
	if err != nil {
		fatal(err)
	}
	n.mu.Lock()
	n.w.Write(b)
	n.w.WriteByte('\n')
	n.mu.Unlock()
}

func (n *ndWriter) Close() {
	n.w.Flush()
	if n.f != nil {
		n.f.Close()
	}
}

func readLines(r io.Reader, f func(line []byte)) {
	sc := bufio.NewScanner(r)
	sc.Buffer(make([]byte, 1<<20), 1<<28)
	for sc.Scan() {
		b := sc.Bytes()
		if len(b) == 0 {
			continue
		}
		f(b)
	}
	if err := sc.Err(); err != nil {
		fatal(err)
	}
}

func openIn(path string) io.ReadCloser {
	if path == "" || path == "-" {
		return os.Stdin
	}
	f, err := os.Open(path)
	if err != nil {
		fatal(err)
	}
	return f
}

func fatal(v interface{}) {
	fmt.Fprintln(os.Stderr, "harness fatal:", v)
	os.Exit(2)
}

func bytesToInts(b []byte) []int {
	r := make([]int, len(b))
	for i, c := range b {
		r[i] = int(c)
	}
	return r
}

func intsToBytes(a []int) []byte {
	r := make([]byte, len(a))
	for i, c := range a {
		r[i] = byte(c)
	}
	return r
}

// hangWatch reports a piece of work on the code under test that has not come back after `limit` (an endless loop looks like a slow
// run otherwise): the input is printed as  @@HANG "<input>"  on stderr and the process ends with exit code 4.
type hangWatch struct {
	m      sync.Map
	id     int64
	limit  time.Duration
	onHang func(input []byte)
}

type hangEntry struct {
	t time.Time
	b []byte
}

func newHangWatch(limit time.Duration, onHang func(input []byte)) *hangWatch {
	h := &hangWatch{limit: limit, onHang: onHang}
	go func() {
		for {
			time.Sleep(2 * time.Second)
			h.m.Range(func(k, v interface{}) bool {
				e := v.(hangEntry)
				if time.Since(e.t) > h.limit {
					if h.onHang != nil {
						h.onHang(e.b)
					}
					fmt.Fprintf(os.Stderr, "@@HANG %q\n", string(e.b))
					os.Exit(4)
				}
				return true
			})
		}
	}()
	return h
}

func (h *hangWatch) begin(b []byte) int64 {
	id := atomic.AddInt64(&h.id, 1)
	h.m.Store(id, hangEntry{time.Now(), b})
	return id
}

func (h *hangWatch) end(id int64) { h.m.Delete(id) }
