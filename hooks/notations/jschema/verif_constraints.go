//go:build verif

package jschema

// Driver for the internal generated ordered map schema.Constraints for /verif (C19). Overlay-injected.
// Keys "a","b","c" stand for three constraint types, values 1,2 for two MinItems constraints.

import (
	"errors"
	"strconv"

	"github.com/jsightapi/jsight-schema-go-library/bytes"
	"github.com/jsightapi/jsight-schema-go-library/notations/jschema/internal/schema"
	"github.com/jsightapi/jsight-schema-go-library/notations/jschema/internal/schema/constraint"
)

type VerifConstraints struct {
	m *schema.Constraints
}

func NewVerifConstraints() *VerifConstraints { return &VerifConstraints{m: &schema.Constraints{}} }

var verifKeys = map[string]constraint.Type{
	"a": constraint.MinLengthConstraintType,
	"b": constraint.MaxLengthConstraintType,
	"c": constraint.MinConstraintType,
}

func verifKeyName(t constraint.Type) string {
	for k, v := range verifKeys {
		if v == t {
			return k
		}
	}
	return "?"
}

func verifVal(v int) constraint.Constraint {
	if v == 0 {
		return nil
	}
	return constraint.NewMinItems(bytes.Bytes([]byte{byte('0' + v)}))
}

func verifInt(c constraint.Constraint) int {
	if c == nil {
		return 0
	}
	if mi, ok := c.(*constraint.MinItems); ok {
		return int(mi.Value())
	}
	return -1
}

func (d *VerifConstraints) Set(k string, v int) { d.m.Set(verifKeys[k], verifVal(v)) }
func (d *VerifConstraints) Update(k string, f func(int) int) {
	d.m.Update(verifKeys[k], func(c constraint.Constraint) constraint.Constraint { return verifVal(f(verifInt(c))) })
}
func (d *VerifConstraints) Delete(k string) { d.m.Delete(verifKeys[k]) }
func (d *VerifConstraints) Filter(f func(string, int) bool) {
	d.m.Filter(func(k constraint.Type, v constraint.Constraint) bool { return f(verifKeyName(k), verifInt(v)) })
}
func (d *VerifConstraints) Map(f func(string, int) (int, error)) error {
	return d.m.Map(func(k constraint.Type, v constraint.Constraint) (constraint.Constraint, error) {
		r, err := f(verifKeyName(k), verifInt(v))
		return verifVal(r), err
	})
}
func (d *VerifConstraints) Get(k string) (int, bool) {
	v, ok := d.m.Get(verifKeys[k])
	return verifInt(v), ok
}
func (d *VerifConstraints) GetValue(k string) int { return verifInt(d.m.GetValue(verifKeys[k])) }
func (d *VerifConstraints) Has(k string) bool     { return d.m.Has(verifKeys[k]) }
func (d *VerifConstraints) Len() int              { return d.m.Len() }
func (d *VerifConstraints) Find(f func(string, int) bool) (string, int, bool) {
	it, ok := d.m.Find(func(k constraint.Type, v constraint.Constraint) bool { return f(verifKeyName(k), verifInt(v)) })
	if !ok {
		return "", 0, false
	}
	return verifKeyName(it.Key), verifInt(it.Value), true
}
func (d *VerifConstraints) Each(f func(string, int) error) error {
	return d.m.Each(func(k constraint.Type, v constraint.Constraint) error { return f(verifKeyName(k), verifInt(v)) })
}
func (d *VerifConstraints) EachSafe(f func(string, int)) {
	d.m.EachSafe(func(k constraint.Type, v constraint.Constraint) { f(verifKeyName(k), verifInt(v)) })
}

// MarshalKeys returns the keys of MarshalJSON's output in order, mapped back to "a","b","c".
func (d *VerifConstraints) MarshalJSON() ([]byte, error) { return d.m.MarshalJSON() }

var ErrVerif = errors.New("verif")

// VerifKeyOfJSON maps a key as printed by Constraints.MarshalJSON (the integer of the constraint type) back to "a","b","c".
func VerifKeyOfJSON(s string) string {
	n, err := strconv.Atoi(s)
	if err != nil {
		return "?" + s
	}
	return verifKeyName(constraint.Type(n))
}
