//go:build verif

package jschema

// Export of the internal schema scanner's event stream for /verif (C06, C13, C14, C17).
// Injected with `go build -overlay`; never part of the repository.

import (
	"fmt"

	"github.com/jsightapi/jsight-schema-go-library/fs"
	"github.com/jsightapi/jsight-schema-go-library/notations/jschema/internal/scanner"
)

type VerifEvent struct {
	Type  string
	Begin int
	End   int
}

// VerifScan runs the schema scanner over content and returns every event, the length-mode result
// (when lengthMode) and the panic value (error or not) that stopped it, if any.
func VerifScan(content []byte, lengthMode bool) (events []VerifEvent, length uint, failure interface{}) {
	defer func() {
		if r := recover(); r != nil {
			failure = r
		}
	}()
	f := fs.NewFile("schema", content)
	if lengthMode {
		s := scanner.New(f, scanner.ComputeLength)
		length = s.Length()
		return
	}
	s := scanner.New(f)
	for i := 0; ; i++ {
		lex, ok := s.Next()
		if !ok {
			break
		}
		events = append(events, VerifEvent{lex.Type().String(), int(lex.Begin()), int(lex.End())})
		if i > 10*len(content)+100 {
			failure = fmt.Errorf("verif: scanner does not terminate")
			break
		}
	}
	return
}
