//go:build verif

package enum

// Export of the enum-rule scanner's event stream for /verif (C06, C18). Overlay-injected.

import (
	stdErrors "errors"
	"fmt"

	"github.com/jsightapi/jsight-schema-go-library/fs"
)

type VerifEvent struct {
	Type  string
	Begin int
	End   int
}

func VerifScan(content []byte) (events []VerifEvent, failure interface{}) {
	defer func() {
		if r := recover(); r != nil {
			failure = r
		}
	}()
	s := newScanner(fs.NewFile("enum", content))
	for i := 0; ; i++ {
		lex, err := s.Next()
		if stdErrors.Is(err, errEOS) {
			break
		}
		if err != nil {
			failure = err
			break
		}
		events = append(events, VerifEvent{lex.Type().String(), int(lex.Begin()), int(lex.End())})
		if i > 10*len(content)+100 {
			failure = fmt.Errorf("verif: scanner does not terminate")
			break
		}
	}
	return
}
