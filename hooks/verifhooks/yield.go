//go:build verif

package verifhooks

import "github.com/jsightapi/jsight-schema-go-library/internal/verifhook"

// SetYield installs the function called at every scheduling point committed in the repository (internal/verifhook).
func SetYield(f func(point string)) { verifhook.Hook = f }
