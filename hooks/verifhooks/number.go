//go:build verif

// Package verifhooks re-exports internal/json's exact-decimal Number for /verif (C10). Overlay-injected.
package verifhooks

import (
	"github.com/jsightapi/jsight-schema-go-library/bytes"
	"github.com/jsightapi/jsight-schema-go-library/internal/json"
)

type Number = json.Number

func NewNumber(s string) (n *json.Number, err error) {
	defer func() {
		if r := recover(); r != nil {
			n, err = nil, &PanicError{r}
		}
	}()
	return json.NewNumber(bytes.Bytes(s))
}

type PanicError struct{ V interface{} }

func (p *PanicError) Error() string { return "panic" }
