#!/usr/bin/env python3
"""python3 replay.py <replay.json>: re-run one recorded violation against /repo's current tree."""
import json, os, sys
sys.path.insert(0, os.path.dirname(os.path.abspath(__file__)))
import vlib, importlib

r = json.load(open(sys.argv[1]))
mod = importlib.import_module("checks." + r["property"].lower())
if not hasattr(mod, "replay"):
    print(json.dumps(r, indent=1))
    print("(no automatic replay for this property; the case above is self-contained)")
    sys.exit(0)
sys.exit(mod.replay(r))
